package main

import (
	"bytes"
	"encoding/hex"
	"fmt"
	"strings"

	"github.com/libsv/go-bt/v2/bscript"

	"verif/internal/mon"
	"verif/internal/prng"
	"verif/internal/refaddr"
)

// C17 — BIP276 text encoding round-trips and follows the specified layout.

type c17RT struct {
	Prefix  string  `json:"prefix"`
	Version int     `json:"version"`
	Network int     `json:"network"`
	Data    mon.Hex `json:"data"`
}

type c17Text struct {
	Text   string `json:"text"`
	Origin string `json:"origin"` // the valid text it was derived from ("" = free-form)
	Class  string `json:"class"`
}

func init() {
	p := &mon.Property{
		ID: "C17",
		Rule: "rt: every (version,network) in 1..255 x 1..255 x prefixes {bitcoin-script, bitcoin-template} x payload-length classes, payload bytes from the PRNG; " +
			"judged against an independent BIP276 codec (layout byte for byte, decode(encode(x)) == x, decoder accepts the specification text, ValidateAddress <=> DecodeBIP276). " +
			"corrupt: every single-character substitution (alphabet of hex digits, upper-case hex, ':' and non-hex letters), deletion and insertion of valid encodings; library accepts => reference accepts with the same tuple. " +
			"distinct_nontrivial = distinct (prefix,version,network,payload) tuples whose encoding was produced and decoded, plus distinct corrupted texts that differ from their origin.",
		Assum: []string{"reference BIP276 codec in /verif/internal/refaddr written from the BIP text (checksum = first 4 bytes of sha256d over everything before it)",
			"a corruption that only changes the case of a payload hex digit is recorded, not judged; the eight checksum digits are judged strictly (lower-case hex of the hash of the preceding text)"},
		Exhaustive: func(string) bool { return true },
	}
	rt := mon.Kind(p, "rt", c17JudgeRT)
	ct := mon.Kind(p, "corrupt", c17JudgeText)
	p.Run = func(c *mon.Ctx) {
		prefixes := []string{bscript.PrefixScript, bscript.PrefixTemplate}
		lens := []int{0, 1, 25, 76} // 0: the empty payload is a payload
		if c.Thorough {
			lens = []int{0, 1, 2, 25, 76, 300, 1000}
		}
		// What a child process calls FIRST differs from shard to shard (lazily
		// initialised state must not depend on which entry point came first).
		c.Phase("first-call-of-the-process")
		{
			scriptText := refaddr.EncodeBIP276(refaddr.BIP276{Prefix: bscript.PrefixScript, Version: 1, Network: 1, Data: []byte{0x51}})
			tmplText := refaddr.EncodeBIP276(refaddr.BIP276{Prefix: bscript.PrefixTemplate, Version: 1, Network: 1, Data: []byte{0x52}})
			first := []string{"DecodeBIP276(template)", "ValidateAddress(bitcoin-script text)", "DecodeBIP276(script)", "EncodeBIP276", "ValidateAddress(base58)"}[c.Shard%5]
			c.Try("first call: "+first, func() {
				switch c.Shard % 5 {
				case 0:
					_, _ = bscript.DecodeBIP276(tmplText)
				case 1:
					_, _ = bscript.ValidateAddress(scriptText)
				case 2:
					_, _ = bscript.DecodeBIP276(scriptText)
				case 3:
					_ = bscript.EncodeBIP276(bscript.BIP276{Prefix: "x", Version: 3, Network: 3, Data: []byte{1}})
				default:
					_, _ = bscript.ValidateAddress("1BvBMSEYstWetqTFn5Au4m4GFg7xJaNVN2")
				}
			})
			c.Count("first-call:" + first)
		}
		c.Phase("rt-exhaustive")
		n := uint64(0)
		for v := 1; v <= 255; v++ {
			for nw := 1; nw <= 255; nw++ {
				for _, pf := range prefixes {
					for _, l := range lens {
						n++
						if !c.Case(n) {
							continue
						}
						r := c.Rand(n)
						rt(c, &c17RT{Prefix: pf, Version: v, Network: nw, Data: r.Bytes(l)})
					}
				}
			}
		}
		// Payloads that look like something else: text in the hexadecimal, decimal or base58
		// alphabets (what Script.String() or an address would give), a BIP276 text itself, JSON,
		// one repeated byte. The payload is bytes; what the bytes spell must not matter.
		c.Phase("payload-shapes")
		{
			alphabets := []string{"0123456789abcdef", "0123456789ABCDEF", "0123456789", "abcdef", "bc", "123456789ABCDEFGHJKLMNPQRSTUVWXYZabcdefghijkmnopqrstuvwxyz",
				" \t\n", "{}[]\":,", "\x00", "\xff", "\x00\xff", ":-", "%+", "\x30\x00"}
			n := uint64(0)
			for ai, al := range alphabets {
				for l := 1; l <= 44; l++ {
					n++
					if !c.Case(n) {
						continue
					}
					r := c.Rand(n)
					d := make([]byte, l)
					for i := range d {
						d[i] = al[r.Intn(len(al))]
					}
					v := 1 + r.Intn(255)
					nw := v
					if l%2 == 1 {
						nw = 1 + r.Intn(255)
					}
					rt(c, &c17RT{Prefix: prefixes[(ai+l)%2], Version: v, Network: nw, Data: d})
					c.Count("payload-shape:alphabet-" + fmt.Sprint(ai))
				}
			}
			for _, s := range []string{"00", "76a914", "0101", "bitcoin-script:010151" + "00000000", hex.EncodeToString(bytes.Repeat([]byte{0xab}, 25)),
				"1BvBMSEYstWetqTFn5Au4m4GFg7xJaNVN2", `{"hex":"51"}`, "OP_DUP OP_HASH160", "0x51", "51 ", " 51", "5g", "%35%31"} {
				n++
				if !c.Case(n) {
					continue
				}
				for _, pf := range prefixes {
					rt(c, &c17RT{Prefix: pf, Version: 1, Network: 1, Data: []byte(s)})
					// and the text of a valid encoding of it, as the payload of another
					inner := refaddr.EncodeBIP276(refaddr.BIP276{Prefix: pf, Version: 1, Network: 1, Data: []byte(s)})
					rt(c, &c17RT{Prefix: pf, Version: 2, Network: 2, Data: []byte(inner)})
				}
				c.Count("payload-shape:spelled")
			}
		}
		c.Phase("corrupt")
		nenc := 200
		if c.Thorough {
			nenc = 3000
		}
		alphabet := "0123456789abcdefABCDEFgGzZ:-_ "
		for e := 0; e < nenc; e++ {
			if !c.Case(uint64(e)) {
				continue
			}
			r := c.Rand(uint64(e))
			b := refaddr.BIP276{Prefix: prng.Pick(r, prefixes), Version: 1 + r.Intn(255), Network: 1 + r.Intn(255), Data: r.Bytes(1 + r.Intn(40))}
			if e%4 == 0 { // the combinations the current decoder can read at all
				b.Version = 1 + r.Intn(9)
				b.Network = b.Version
			}
			texts := []string{refaddr.EncodeBIP276(b)}
			var lib string
			if c.Try("EncodeBIP276", func() {
				lib = bscript.EncodeBIP276(bscript.BIP276{Prefix: b.Prefix, Version: b.Version, Network: b.Network, Data: b.Data})
			}) && lib != texts[0] {
				texts = append(texts, lib)
			}
			for _, t := range texts {
				ct(c, &c17Text{Text: t, Origin: t, Class: "identity"})
				for i := 0; i <= len(t); i++ {
					if i < len(t) {
						ct(c, &c17Text{Text: t[:i] + t[i+1:], Origin: t, Class: "delete"})
						for k := 0; k < len(alphabet); k++ {
							if alphabet[k] != t[i] {
								ct(c, &c17Text{Text: t[:i] + alphabet[k:k+1] + t[i+1:], Origin: t, Class: "substitute"})
							}
						}
						if i+1 < len(t) && t[i] != t[i+1] {
							ct(c, &c17Text{Text: t[:i] + t[i+1:i+2] + t[i:i+1] + t[i+2:], Origin: t, Class: "transpose"})
						}
					}
					for k := 0; k < len(alphabet); k++ {
						ct(c, &c17Text{Text: t[:i] + alphabet[k:k+1] + t[i:], Origin: t, Class: "insert"})
					}
					// characters a tolerant reader might drop or fold: invisible format characters, other
					// white space, control characters, digits and letters of other scripts
					for _, x := range c17Exotic {
						ct(c, &c17Text{Text: t[:i] + x + t[i:], Origin: t, Class: "insert-non-ascii"})
						if i < len(t) && e%3 == 0 {
							ct(c, &c17Text{Text: t[:i] + x + t[i+1:], Origin: t, Class: "substitute-non-ascii"})
						}
					}
				}
				ct(c, &c17Text{Text: t[:len(t)-8], Origin: t, Class: "no-checksum"})
				ct(c, &c17Text{Text: strings.ToUpper(t), Origin: t, Class: "upper"})
				for i := 0; i < len(t); i++ { // the case of one letter, scheme name included
					if f := flipCase(t[i]); f != t[i] {
						ct(c, &c17Text{Text: t[:i] + string(f) + t[i+1:], Origin: t, Class: "case-flip"})
					}
				}
			}
		}
		c.Phase("long-payloads") // texts of several hundred to several thousand characters: round trip, specification text, and substitutions at sampled positions over the whole length
		longs := []int{200, 240, 245, 246, 250, 256, 300, 511, 512, 600, 2000, 5000, 9999, 10000, 10001, 16384}
		if c.Thorough {
			longs = append(longs, 65536, 250000)
		}
		for li, L := range longs {
			if !c.Case(uint64(li)) {
				continue
			}
			r := c.Rand(uint64(li))
			for _, pf := range prefixes {
				v := 1 + r.Intn(200)
				rt(c, &c17RT{Prefix: pf, Version: v, Network: v, Data: r.Bytes(L)})
				t := refaddr.EncodeBIP276(refaddr.BIP276{Prefix: pf, Version: v, Network: v, Data: r.Bytes(L)})
				ct(c, &c17Text{Text: t, Origin: t, Class: "identity"})
				for k := 0; k < 160; k++ {
					i := len(pf) + 1 + r.Intn(len(t)-len(pf)-1)
					if k%4 == 0 {
						i = len(t) - 1 - r.Intn(40) // near the end: the last data digits and the checksum
					}
					ch := "0123456789abcdef"[r.Intn(16)]
					if ch != t[i] {
						ct(c, &c17Text{Text: t[:i] + string(ch) + t[i+1:], Origin: t, Class: "substitute"})
					}
				}
			}
		}
		c.Phase("free-form")
		free := []string{"", ":", "bitcoin-script:", "bitcoin-script:01", "bitcoin-script:0101", "bitcoin-script:010100000000", "bitcoin-script:invalid",
			"bitcoin-script:0101zz00000000", ":010100deadbeef", "bitcoin-script:01010", "bitcoin-script::0101ab00000000"}
		// malformed layouts whose checksum is CORRECT for their own characters (a corruption of a
		// valid text never is): no scheme in front of the colon; other schemes in the same layout
		for _, d := range [][]byte{{0x51}, {0x6a, 0x01, 0x02}, bytes.Repeat([]byte{0x77}, 40)} {
			for _, scheme := range []string{"", "bitcoin-scripts", "bitcoin-script-v2", "Bitcoin-script", "bitcoin-scrip", "xbitcoin-script", "bitcoin-script "} {
				free = append(free, refaddr.EncodeBIP276(refaddr.BIP276{Prefix: scheme, Version: 1, Network: 1, Data: d}))
			}
		}
		// texts whose checksum is correct for the text AS WRITTEN: upper-case hex digits in header
		// and data (both cases are hex), something in front of the scheme (a line, a word)
		ck := func(body string) string { return body + hex.EncodeToString(refaddr.Sha256d([]byte(body))[:4]) }
		for _, d := range [][]byte{{0x76, 0xa9, 0x14, 0xde, 0xad, 0xbe, 0xef, 0x88, 0xac}, {0xab, 0xcd, 0xef}, bytes.Repeat([]byte{0xfa}, 30)} {
			up := strings.ToUpper(hex.EncodeToString(d))
			free = append(free, ck("bitcoin-script:0101"+up), ck("bitcoin-script:0A0A"+up), ck("bitcoin-script:0101"+up[:2]+strings.ToLower(up[2:])),
				ck("first line\nbitcoin-script:0101"+up), ck("x\nbitcoin-script:0101"+strings.ToLower(up)), ck("bitcoin-script:0101"+strings.ToLower(up)+"\n"), ck(" bitcoin-script:0101"+strings.ToLower(up)))
		}
		// header fields that are not two hex digits (a sign, a blank, other digits) and the checksum
		// digits occurring a second time in the text - all with the checksum of the text as written
		for _, hdr := range []string{"+1+1", "-1-1", "+101", "01+1", " 101", "1 01", "0x01", "1e01", "\u0661\u0661", "0101"} {
			free = append(free, ck("bitcoin-script:"+hdr+"51"), ck("bitcoin-script:"+hdr+"76a914"+strings.Repeat("ab", 20)+"88ac"))
		}
		for _, bad := range []string{"ZZ", "GG", "5Z", "Z5", "__", "[]", "^^", "``", "\\\\", "gg", "zz", "@@", "//", "::"} { // data digits just outside the hexadecimal alphabet
			free = append(free, ck("bitcoin-script:0101"+bad), ck("bitcoin-script:010151"+bad+"52"))
		}
		for _, d := range [][]byte{{0x51}, bytes.Repeat([]byte{0x6a}, 9)} {
			t := refaddr.EncodeBIP276(refaddr.BIP276{Prefix: "bitcoin-script", Version: 1, Network: 1, Data: d})
			c8 := t[len(t)-8:]
			free = append(free, t+c8, t+"00"+c8, t+"51"+c8, t[:len(t)-8]+c8+c8)
		}
		for i, t := range free {
			if c.Case(uint64(i)) {
				ct(c, &c17Text{Text: t, Class: "free"})
			}
		}
	}
	p.Floor = func(a *mon.Agg) string {
		for _, k := range []string{"rt:decoded", "corrupt:lib-rejected", "corrupt:class:substitute", "corrupt:class:insert", "corrupt:class:delete", "validate:compared", "payload-shape:spelled", "payload-shape:alphabet-0"} {
			if a.Cov[k] == 0 {
				return "counter " + k + " is zero"
			}
		}
		return ""
	}
	{ // concurrent callers / readers (concurrent.go), after the sequential phases
		conc, run := concPhase(p, concBIP276), p.Run
		p.Run = func(c *mon.Ctx) { run(c); conc(c) }
	}
	mon.Register(p)
}

func c17JudgeRT(c *mon.Ctx, in *c17RT) {
	c.Eval(1)
	ref := refaddr.EncodeBIP276(refaddr.BIP276{Prefix: in.Prefix, Version: in.Version, Network: in.Network, Data: in.Data})
	swapped := refaddr.EncodeBIP276(refaddr.BIP276{Prefix: in.Prefix, Version: in.Network, Network: in.Version, Data: in.Data})
	var text string
	if !c.Try("bscript.EncodeBIP276", func() {
		// the data is a sub-slice of a larger buffer: the encoder reads it, nothing more
		arena := append(append(bytes.Repeat([]byte{0xC5}, 6), in.Data...), bytes.Repeat([]byte{0xC6}, 6)...)
		arena0 := append([]byte{}, arena...)
		text = bscript.EncodeBIP276(bscript.BIP276{Prefix: in.Prefix, Version: in.Version, Network: in.Network, Data: arena[6 : 6+len(in.Data)]})
		if !bytes.Equal(arena, arena0) {
			c.Violationf("C17:argument-memory-modified", "EncodeBIP276 modified the buffer holding its Data argument: now %x, was %x", arena, arena0)
		}
	}) {
		return
	}
	c.Count("rt:encoded")
	if text != ref {
		if text == swapped {
			c.Violationf("C17:layout:network-written-before-version", "EncodeBIP276(version=%d, network=%d) = %q, specification layout (version then network) is %q", in.Version, in.Network, text, ref)
		} else {
			c.Violationf("C17:layout:other", "EncodeBIP276(version=%d, network=%d) = %q, specification layout is %q", in.Version, in.Network, text, ref)
		}
	} else {
		c.Count("rt:layout-equal-spec")
	}
	// decode what the library itself produced
	var got *bscript.BIP276
	var err error
	if c.Try("bscript.DecodeBIP276", func() { got, err = bscript.DecodeBIP276(text) }) {
		switch {
		case err != nil:
			c.Violationf("C17:roundtrip:decode-error", "DecodeBIP276(EncodeBIP276(version=%d, network=%d, %d data bytes)) failed: %v (text %q)", in.Version, in.Network, len(in.Data), err, text)
		case got.Prefix == in.Prefix && got.Version == in.Version && got.Network == in.Network && bytes.Equal(got.Data, in.Data):
			c.Count("rt:decoded")
			c.Distinct(prng.HashBytes([]byte(in.Prefix), []byte{byte(in.Version), byte(in.Network)}, in.Data))
		case got.Prefix == in.Prefix && got.Version == in.Network && got.Network == in.Version && bytes.Equal(got.Data, in.Data):
			c.Count("rt:decoded")
			c.Violationf("C17:roundtrip:version-network-swapped", "decode(encode(version=%d, network=%d)) returned version=%d network=%d", in.Version, in.Network, got.Version, got.Network)
		default:
			c.Violationf("C17:roundtrip:mismatch", "decode(encode(%q,%d,%d,%x)) = (%q,%d,%d,%x)", in.Prefix, in.Version, in.Network, []byte(in.Data), got.Prefix, got.Version, got.Network, got.Data)
		}
	}
	// what a decode returned belongs to the caller: it must survive later decodes
	if got != nil && err == nil && len(got.Data) > 0 {
		keep, snap := got.Data, append([]byte{}, got.Data...)
		other := make([]byte, len(in.Data))
		for i := range other {
			other[i] = ^in.Data[i]
		}
		c.Try("bscript.DecodeBIP276", func() {
			_, _ = bscript.DecodeBIP276(bscript.EncodeBIP276(bscript.BIP276{Prefix: in.Prefix, Version: in.Version, Network: in.Network, Data: other}))
			_, _ = bscript.DecodeBIP276(refaddr.EncodeBIP276(refaddr.BIP276{Prefix: in.Prefix, Version: in.Version, Network: in.Network, Data: other}))
		})
		c.Count("rt:retained-result-checks")
		if !bytes.Equal(keep, snap) {
			c.Violationf("C17:decoded-data-changed-by-a-later-decode", "the Data returned by DecodeBIP276 (%x…) changed to %x… after another text was decoded", snap[:min(len(snap), 12)], keep[:min(len(keep), 12)])
		}
	}
	// ... and the caller may overwrite it: decoding the SAME text again, right
	// afterwards, must give the encoded data, not what the caller wrote
	if c.Try("bscript.DecodeBIP276", func() { got, err = bscript.DecodeBIP276(text) }) && err == nil && got != nil && len(got.Data) > 0 {
		mon.Scribble(got.Data)
		got.Prefix, got.Version, got.Network = "scribbled", 250, 251
		var again *bscript.BIP276
		if c.Try("bscript.DecodeBIP276", func() { again, err = bscript.DecodeBIP276(text) }) {
			c.Count("rt:decode-again-after-caller-overwrote-the-result")
			if err != nil || again == nil || !bytes.Equal(again.Data, in.Data) || again.Prefix != in.Prefix {
				c.Violationf("C17:decode-again-differs", "decoding %q a second time, after the caller overwrote the first result, returned err=%v and not the encoded data", text, err)
			}
		}
	}
	// a decoded value is an ordinary value: edited in place and encoded again it
	// gives the text of its present content
	if c.Try("bscript.DecodeBIP276", func() { got, err = bscript.DecodeBIP276(text) }) && err == nil && got != nil && len(got.Data) > 0 {
		for i := range got.Data {
			got.Data[i] ^= byte(0x5a + i)
		}
		fresh := bscript.BIP276{Prefix: got.Prefix, Version: got.Version, Network: got.Network, Data: append([]byte{}, got.Data...)}
		var a, b string
		if c.Try("bscript.EncodeBIP276", func() { a, b = bscript.EncodeBIP276(*got), bscript.EncodeBIP276(fresh) }) {
			c.Count("rt:decoded-value-edited-in-place-and-encoded")
			if a != b {
				c.Violationf("C17:encode-of-edited-decoded-value", "a decoded value whose Data was edited in place encodes to %q, an equal freshly built value to %q", a, b)
			}
		}
	}
	// the decoder must read the specification text
	if c.Try("bscript.DecodeBIP276", func() { got, err = bscript.DecodeBIP276(ref) }) {
		if err != nil {
			c.Violationf("C17:decode-spec-text:rejected", "DecodeBIP276 rejects the specification encoding of version=%d network=%d: %q: %v", in.Version, in.Network, ref, err)
		} else if !(got.Prefix == in.Prefix && got.Version == in.Version && got.Network == in.Network && bytes.Equal(got.Data, in.Data)) {
			c.Violationf("C17:decode-spec-text:mismatch", "DecodeBIP276(%q) = (%q,%d,%d,%x), want (%q,%d,%d,…)", ref, got.Prefix, got.Version, got.Network, got.Data, in.Prefix, in.Version, in.Network)
		} else {
			c.Count("rt:spec-text-decoded")
		}
	}
	c17Validate(c, text)
	c.Sample("rt", 3, func() any {
		return map[string]any{"input": in, "library_text": text, "spec_text": ref}
	})
}

func flipCase(b byte) byte {
	switch {
	case b >= 'a' && b <= 'z':
		return b - 32
	case b >= 'A' && b <= 'Z':
		return b + 32
	}
	return b
}

// ValidateAddress(s) <=> DecodeBIP276(s) succeeds, for bitcoin-script: strings.
func c17Validate(c *mon.Ctx, text string) {
	exact := strings.HasPrefix(text, "bitcoin-script:")
	if !exact && !strings.ContainsAny(text, ":-") {
		return // may be read as a Base58Check address (C15)
	}
	var ok bool
	var derr error
	if !c.Try("bscript.ValidateAddress", func() { ok, _ = bscript.ValidateAddress(text) }) {
		return
	}
	if !c.Try("bscript.DecodeBIP276", func() { _, derr = bscript.DecodeBIP276(text) }) {
		return
	}
	c.Count("validate:compared")
	if !exact {
		// not a bitcoin-script: string and, holding ':' or '-', not Base58 either: never valid
		c.Count("validate:compared:scheme-differs")
		if ok {
			c.Violationf("C17:validate-accepts-other-scheme", "ValidateAddress(%q)=true; the text does not start with bitcoin-script: (DecodeBIP276 error=%v) and is not Base58", text, derr)
		}
		return
	}
	if ok != (derr == nil) {
		c.Violationf("C17:validate-vs-decode", "ValidateAddress(%q)=%v but DecodeBIP276 error=%v", text, ok, derr)
	}
}

var c17Judged int

var c17Exotic = []string{"\ufeff", "\u200b", "\u200d", "\u00ad", "\u200e", "\u2060", "\u00a0", "\u3000", "\t", "\n", "\r", "\x00", "\x7f", "\uff11", "\u0661", "\uff41", "\u0430", "\xff", "\xc0\x80"}

var (
	c17RefOrigin string
	c17Ref       *refaddr.BIP276
	c17RefErr    error
)

func c17JudgeText(c *mon.Ctx, in *c17Text) {
	c.Eval(1)
	c.Count("corrupt:class:" + in.Class)
	var got *bscript.BIP276
	var err error
	if !c.Try("bscript.DecodeBIP276", func() { got, err = bscript.DecodeBIP276(in.Text) }) {
		return
	}
	c17Validate(c, in.Text)
	if in.Text != in.Origin {
		c.Distinct(prng.HashBytes([]byte(in.Text)))
	}
	if err != nil {
		c.Count("corrupt:lib-rejected")
		// a refused text leaves no trace: the valid text it was derived from still decodes, and the
		// library still encodes as it did, in the very next calls
		if in.Origin != "" && in.Origin != in.Text {
			if c17RefOrigin != in.Origin { // the reference's reading of the origin, once per origin
				c17RefOrigin = in.Origin
				c17Ref, c17RefErr = refaddr.DecodeBIP276(in.Origin)
			}
			if ref, rerr := c17Ref, c17RefErr; rerr == nil {
				var again *bscript.BIP276
				var aerr error
				if c.Try("bscript.DecodeBIP276", func() { again, aerr = bscript.DecodeBIP276(in.Origin) }) {
					if aerr != nil || again == nil || again.Prefix != ref.Prefix || again.Version != ref.Version || again.Network != ref.Network || !bytes.Equal(again.Data, ref.Data) {
						c.Violationf("C17:valid-text-refused-right-after-a-refused-one", "DecodeBIP276(%q) right after the refused %q (class %s): %v / %+v", in.Origin, in.Text, in.Class, aerr, again)
					} else {
						c.Count("corrupt:origin-still-decodes-after-refusal")
					}
				}
				if c17Judged++; c17Judged%5 == 0 { // and the encoder after a refusal
					var e1, e2 string
					if c.Try("bscript.EncodeBIP276", func() {
						e1 = bscript.EncodeBIP276(bscript.BIP276{Prefix: ref.Prefix, Version: ref.Version, Network: ref.Network, Data: ref.Data})
						_, _ = bscript.DecodeBIP276(in.Text)
						e2 = bscript.EncodeBIP276(bscript.BIP276{Prefix: ref.Prefix, Version: ref.Version, Network: ref.Network, Data: ref.Data})
					}) && e1 != e2 {
						c.Violationf("C17:encoding-differs-right-after-a-refused-text", "EncodeBIP276 of one tuple gave %q, and %q right after DecodeBIP276 refused %q", e1, e2, in.Text)
					}
				}
			}
		}
		if in.Class == "identity" {
			if _, rerr := refaddr.DecodeBIP276(in.Text); rerr == nil {
				// a valid specification text the decoder cannot read; reported by the rt judge with detail
				c.Count("corrupt:identity-rejected")
			}
		}
		return
	}
	c.Count("corrupt:lib-accepted")
	ref, rerr := refaddr.DecodeBIP276(in.Text)
	if rerr != nil {
		if in.Origin != "" && len(in.Text) == len(in.Origin) && len(in.Text) > 8 && in.Text[len(in.Text)-8:] == in.Origin[len(in.Origin)-8:] && strings.EqualFold(in.Text, in.Origin) {
			// only the case of a payload digit changed (the checksum field itself is judged strictly)
			c.Count("corrupt:case-only-change-accepted(not judged)")
			return
		}
		c.Violationf("C17:malformed-accepted:"+in.Class, "DecodeBIP276 accepts %q (reference rejects: %v); derived from %q", in.Text, rerr, in.Origin)
		return
	}
	if !(got.Prefix == ref.Prefix && got.Version == ref.Version && got.Network == ref.Network && bytes.Equal(got.Data, ref.Data)) {
		if got.Prefix == ref.Prefix && got.Version == ref.Network && got.Network == ref.Version && bytes.Equal(got.Data, ref.Data) {
			c.Violationf("C17:decode:version-network-swapped", "DecodeBIP276(%q) = version %d network %d, specification reads version %d network %d", in.Text, got.Version, got.Network, ref.Version, ref.Network)
			return
		}
		c.Violation("C17:decode:tuple-differs", fmt.Sprintf("DecodeBIP276(%q) = (%q,%d,%d,%x), reference (%q,%d,%d,%x)", in.Text, got.Prefix, got.Version, got.Network, got.Data, ref.Prefix, ref.Version, ref.Network, ref.Data))
	}
}
